"""G8: structural facts of the thread / channel protocol (C17).

Every fact is located by name and shape.  The values parameterise Model/Protocol.v (record pfacts):
the theorems of Props/C17.v are proved for the values found in the sources NOW."""
import re


def _arms(block):
    """split the body of a `match` into its arms: list of arm texts (pattern + body), brace/paren aware"""
    arms = []
    depth = 0
    cur = ""
    i = 0
    n = len(block)
    while i < n:
        c = block[i]
        if c in "({[":
            depth += 1
        elif c in ")}]":
            depth -= 1
        cur += c
        # an arm ends at a top-level ',' or at a top-level '}' that closes a block body
        if depth == 0 and (c == "," or c == "}"):
            if "=>" in cur:
                arms.append(cur)
                cur = ""
        i += 1
    if "=>" in cur:
        arms.append(cur)
    return arms


def g(F, X):
    rd = X.strip_comments(X.read(X.AR + "/lib.rs"))
    an = X.strip_comments(X.read(X.FP + "/analyze/lib.rs"))
    wl = X.strip_comments(X.read(X.FP + "/write/lib.rs"))
    ww = X.strip_comments(X.read(X.FP + "/write/writer.rs"))
    lib = X.strip_comments(X.read(X.FP + "/lib.rs"))
    vd = X.strip_comments(X.read(X.FP + "/analyze/validators/validator_dispatcher.rs"))
    lv = X.strip_comments(X.read(X.FP + "/analyze/validators/link_validator.rs"))
    sc = X.strip_comments(X.read(X.FP + "/stats/stats_collector.rs"))
    ct = X.strip_comments(X.read(X.FP + "/controller.rs"))

    # 1. reader loop condition polls the stop flag
    body = X.fn_body(rd, "spawn_reader")
    v = None
    if body:
        m = re.search(r"\bwhile\b([^{]*)\{", body)
        if m:
            v = bool(re.search(r"!\s*stop_flag\s*\.\s*load\s*\(", m.group(1)))
    F.add("proto_reader_polls", "bool", v, True, "alice_protocol_reader lib.rs spawn_reader: the loop condition loads the stop flag")

    # 2. analysis loop condition polls the stop flag
    body = X.fn_body(an, "spawn_analysis")
    v = None
    if body:
        m = re.search(r"\bwhile\b([^{]*)\{", body)
        if m:
            v = bool(re.search(r"!\s*stop_flag\s*\.\s*load\s*\(", m.group(1)))
    F.add("proto_analysis_polls", "bool", v, True, "analyze/lib.rs spawn_analysis: the loop condition loads the stop flag")

    # 3. writer checks the stop flag after a receive and leaves the loop
    body = X.fn_body(wl, "spawn_writer")
    v = None
    if body:
        m = re.search(r"\bif\s+stop_flag\s*\.\s*load\s*\([^)]*\)\s*\{([^}]*)\}", body)
        v = bool(m and "break" in m.group(1))
    F.add("proto_writer_polls", "bool", v, True, "write/lib.rs spawn_writer: `if stop_flag.load(..) { .. break }` after the receive")

    # 4. `process` drops its receiver clone on every arm that does not hand it to the writer
    body = X.fn_body(lib, "process")
    v = None
    if body:
        m = re.search(r"let\s+output_handle[^=]*=\s*match\s*\(", body)
        if m:
            j = body.find("{", body.find(")", m.end()))
            # brace-match the match body
            depth = 1
            k = j + 1
            while k < len(body) and depth:
                if body[k] == "{":
                    depth += 1
                elif body[k] == "}":
                    depth -= 1
                k += 1
            arms = _arms(body[j + 1:k - 1])
            if arms:
                v = all(("spawn_writer" in a) or re.search(r"\bdrop\s*\(\s*reader_data_recv\s*\)", a) for a in arms)
    F.add("proto_main_drops_recv", "bool", v, True, "fastpasta lib.rs process: every arm of the output match without spawn_writer drops reader_data_recv")

    # 5. ValidatorDispatcher::join clears the senders before joining the threads
    body = X.fn_body(vd, "join")
    v = None
    if body:
        a = re.search(r"process_channels\s*\.\s*clear\s*\(\s*\)", body)
        b = re.search(r"\.\s*join\s*\(\s*\)", body)
        v = bool(a and b and a.start() < b.start())
    F.add("proto_join_clears", "bool", v, True, "validator_dispatcher.rs join: process_channels.clear() precedes the thread joins")

    # 6. a failed flush of the filtered-data writer is not unwrapped / expected (non-test code of writer.rs, write/lib.rs)
    nt = ww.split("#[cfg(test)]")[0]
    v = None
    if "fn flush" in nt:
        v = not re.search(r"flush\s*\(\s*\)\s*\.\s*(expect|unwrap)\s*\(", nt + wl.split("#[cfg(test)]")[0])
    F.add("proto_writer_err_handled", "bool", v, True, "write/writer.rs, write/lib.rs: no `.flush().expect(..)` / `.unwrap()`")

    # 7. a failing view write becomes a Fatal message
    body = X.fn_body(an, "spawn_analysis")
    v = None
    if body and "generate_view" in body:
        v = bool(re.search(r"if\s+let\s+Err\s*\(\s*\w+\s*\)\s*=\s*view\s*::\s*lib\s*::\s*generate_view\s*\(", body)
                 and re.search(r"StatType\s*::\s*Fatal", body)
                 and not re.search(r"generate_view\s*\([^;]*\)\s*\.\s*(unwrap|expect)\s*\(", body))
    F.add("proto_view_err_handled", "bool", v, True, "analyze/lib.rs: `if let Err(e) = view::lib::generate_view(..)` sends StatType::Fatal")

    # 8. statistics / report to a closed stdout: no println!/print! (which panic on a write error)
    b1 = X.fn_body(sc, "write_stats_str")
    b2 = X.fn_body(ct, "print")
    v = None
    if b1 is not None and b2 is not None:
        v = not re.search(r"\bprintln!\s*\(|\bprint!\s*\(", b1 + b2)
    F.add("proto_stats_stdout_handled", "bool", v, True, "stats_collector.rs write_stats_str and controller.rs print: no println!/print!")

    # 9. capacities
    cap = X.const_in(rd, "CHANNEL_CDP_BATCH_CAPACITY")
    if cap is not None and not re.search(r"bounded\s*\(\s*CHANNEL_CDP_BATCH_CAPACITY\s*\)", rd):
        cap = None
    F.add("proto_dcap", "N", cap, 100, "alice_protocol_reader lib.rs: crossbeam_channel::bounded(CHANNEL_CDP_BATCH_CAPACITY)")
    # the key the dispatcher routes by is chosen from the check target alone (FEE id exactly for `check all its-stave`): no filter or
    # other option takes part in the decision
    nb = X.fn_body(vd, "new")
    v = None
    if nb:
        m = re.search(r"let\s+dispatch_by\s*=\s*if\b(.*?)\{\s*DispatchId::FeeId", nb, flags=re.S)
        if m:
            cond = m.group(1)
            v = ("filter" not in cond) and ("ITS_Stave" in cond) and ("CheckCommands::All" in cond) and (cond.count("&&") == 0) and (cond.count("||") == 0) \
                and bool(re.match(r"\s*global_config\s*\.\s*check\s*\(\s*\)\s*\.\s*is_some_and", cond))
    F.add("dispatch_key_from_check_target_only", "bool", v, True, "validator_dispatcher.rs new: dispatch_by is FeeId iff check() is All with target ITS_Stave, nothing else in the condition")
    # 9b. exactly one consumer of the reader's data channel: the analysis thread is started iff a check or a view is requested, the
    #     writer iff neither is (and a filter + an output are given) -- two consumers on one channel would split the batches (seed C08-H)
    body = X.fn_body(lib, "process")
    v = None
    if body:
        b = re.sub(r"\s+", " ", body)
        a = re.search(r"let analysis_handle = if (.*?) \{", b)
        w = re.search(r"\( ?None, None, true, output_mode ?\) if output_mode != DataOutputMode::None => Some\( ?write::lib::spawn_writer", b)
        v = bool(a and a.group(1).strip() == "config.check().is_some() || config.view().is_some()" and w
                 and b.count("spawn_writer") == 1 and b.count("spawn_analysis") == 1)
    F.add("proto_single_data_consumer", "bool", v, True,
          "fastpasta lib.rs process: analysis thread iff check or view; writer iff (None, None, filter, output); one call site each")
    F.add("proto_vcap_min", "N", X.const_in(vd, "INITIAL_CHAN_CAP"), 128, "validator_dispatcher.rs init_validator: INITIAL_CHAN_CAP (capacities only grow from it)")

    # 10. loops that end only when their channel is disconnected; the controller gives up its own sender first
    body = X.fn_body(lv, "run")
    v = None
    if body:
        v = bool(re.search(r"while\s+let\s+Ok\s*\(\s*\w+\s*\)\s*=\s*self\s*\.\s*data_recv_chan\s*\.\s*recv\s*\(\s*\)", body))
    F.add("proto_validator_until_disconnect", "bool", v, True, "link_validator.rs run: `while let Ok(cdp) = self.data_recv_chan.recv()`")
    body = X.fn_body(lib, "forward_input_stats_to_stats_collector")
    v = None
    if body:
        v = bool(re.search(r"while\s+let\s+Ok\s*\(\s*\w+\s*\)\s*=\s*input_stats_recv\s*\.\s*recv\s*\(\s*\)", body))
    F.add("proto_forward_until_disconnect", "bool", v, True, "fastpasta lib.rs forward_input_stats_to_stats_collector: `while let Ok(..) = input_stats_recv.recv()`")
    body = X.fn_body(ct, "run")
    v = None
    if body:
        a = re.search(r"self\s*\.\s*stats_send_chan\s*=\s*None", body)
        b = re.search(r"while\s+let\s+Ok\s*\(\s*\w+\s*\)\s*=\s*self\s*\.\s*stats_recv_chan\s*\.\s*recv\s*\(\s*\)", body)
        v = bool(a and b and a.start() < b.start())
    F.add("proto_ctrl_drops_own_sender", "bool", v, True, "controller.rs run: `self.stats_send_chan = None` before `while let Ok(..) = self.stats_recv_chan.recv()`")
    # 11. the controller raises the stop flag on a fatal message and when the error count equals the cap
    body = X.fn_body(ct, "update")
    v = None
    if body:
        m = re.search(r"StatType\s*::\s*Fatal\s*\(\s*\w+\s*\)\s*=>\s*\{", body)
        fat = False
        if m:
            seg = body[m.end():]
            fat = bool(re.search(r"end_processing_flag\s*\.\s*store\s*\(\s*true", seg))
        capm = re.search(r"err_count\s*\(\s*\)\s*==\s*self\s*\.\s*max_tolerate_errors[^{]*\{([^}]*)\}", body)
        v = bool(fat and capm and re.search(r"end_processing_flag\s*\.\s*store\s*\(\s*true", capm.group(1)))
    F.add("proto_ctrl_raises_stop", "bool", v, True, "controller.rs update: Fatal arm and `err_count() == max_tolerate_errors` store true into the stop flag")

    # 12. the signal handler: the stop flag is stored unconditionally; the process is exited only on the handler's own
    #     second invocation (a counter of its own), never depending on the value the stop flag already had
    ul = X.strip_comments(X.read(X.FP + "/util/lib.rs"))
    body = X.fn_body(ul, "init_ctrlc_handler")
    v = None
    if body:
        stores = bool(re.search(r"stop_flag\s*\.\s*store\s*\(\s*true", body))
        reads_flag = bool(re.search(r"stop_flag\s*\.\s*(swap|load|fetch_or|fetch_and|compare_exchange\w*)\s*\(", body))
        m = re.search(r"if\s+([A-Za-z_][A-Za-z0-9_]*)\s*>\s*1\s*\{[^}]*process\s*::\s*exit", body)
        own = bool(m and re.search(re.escape(m.group(1)) + r"\s*\+=\s*1", body))
        exits = "exit" in body
        v = stores and not reads_flag and (own or not exits)
    F.add("proto_handler_own_counter", "bool", v, True, "util/lib.rs init_ctrlc_handler: stores the flag, and process::exit only under `if <own counter> > 1`")


def register(X, EXTRA):
    EXTRA.append(lambda F: g(F, X))
