"""Structural facts of the stave-level frame logic (C13): when the lanes announced fatal in a frame join the running list, and
whether that list is kept duplicate-free (analyze/validators/its/cdp_running/readout_frame.rs)."""
import re


def g_alpide(F, X):
    src = X.strip_comments(X.read(X.FP + "/analyze/validators/its/cdp_running/readout_frame.rs"))
    body = X.fn_body(src, "process_frame")
    after = None
    if body:
        i_add = body.find("add_fatal_lanes(")
        i_chk = body.find("check_frame_lanes_valid(")
        if i_add >= 0 and i_chk >= 0:
            after = i_chk < i_add
    F.add("fatal_lanes_added_after_lane_check", "bool", after, True,
          "readout_frame.rs process_frame: the lane-count rule is evaluated before this frame's fatal lanes join the running list")
    ab = X.fn_body(src, "add_fatal_lanes")
    dd = None
    if ab:
        # a lane is listed once: membership test before the push, or sort + dedup (Vec::dedup alone only drops CONSECUTIVE repeats)
        guarded_push = bool(re.search(r"if\s*!\s*\w+\s*\.\s*contains\s*\(\s*&?\s*\w+\s*\)\s*\{[^{}]*\.\s*push\s*\(", ab))
        sorted_dedup = bool(re.search(r"\.\s*sort(_unstable)?\s*\(\s*\)\s*;[^{}]*\.\s*dedup\s*\(\s*\)", ab, flags=re.S))
        other_insert = bool(re.search(r"\.\s*(extend|append|insert|extend_from_slice)\s*\(", ab))
        dd = (guarded_push and not other_insert) or sorted_dedup
    F.add("fatal_lanes_deduplicated", "bool", dd, True, "readout_frame.rs add_fatal_lanes: a lane is listed once")


def register(X, EXTRA):
    EXTRA.append(lambda F: g_alpide(F, X))


def g_tdh_after_done(F, X):
    src = X.strip_comments(X.read(X.FP + "/analyze/validators/its/cdp_running.rs"))
    body = X.fn_body(src, "check_tdh_by_was_tdt_packet_done_true")
    val = None
    if body is not None:
        val = bool(re.search(r"continuation\s*\(\s*\)\s*!=\s*0", body)) and "[E42]" in body
    F.add("tdh_after_done_checks_continuation", "bool", val, True,
          "cdp_running.rs check_tdh_by_was_tdt_packet_done_true: a TDH after a complete packet with continuation != 0 is reported ([E42])")


_reg_alpide = register


def register(X, EXTRA):
    _reg_alpide(X, EXTRA)
    EXTRA.append(lambda F: g_tdh_after_done(F, X))


def g_no_panic_fixes(F, X):
    src = X.strip_comments(X.read(X.FP + "/analyze/validators/its/cdp_running/readout_frame.rs"))
    body = X.fn_body(src, "store_lane_data")
    v = None
    if body is not None:
        v = bool(re.search(r"if\s+let\s+Some\s*\(\s*\w+\s*\)\s*=\s*self\s*\.\s*alpide_readout_frame\s*\.\s*as_mut\s*\(\s*\)", body)) and ".unwrap()\n            .store_lane_data" not in body \
            and not re.search(r"as_mut\s*\(\s*\)\s*\.\s*unwrap\s*\(\s*\)", body)
    F.add("data_word_without_frame_is_ignored", "bool", v, True, "readout_frame.rs store_lane_data: a data word with no open readout frame is not stored (no unwrap of None)")
    la = X.strip_comments(X.read(X.FP + "/analyze/validators/its/alpide/lane_alpide_frame_analyzer.rs"))
    body = X.fn_body(la, "do_lane_alpide_checks")
    v = None
    if body is not None:
        m = re.search(r"^\s*if\s+self\s*\.\s*chip_data\s*\.\s*is_empty\s*\(\s*\)\s*\{", body)
        v = bool(m) and bool(re.search(r"return\s+Err\s*\(", body[:body.find("check_bunch_counters")] if "check_bunch_counters" in body else ""))
    F.add("lane_without_chip_is_reported", "bool", v, True, "lane_alpide_frame_analyzer.rs do_lane_alpide_checks: a lane without chip data returns a lane error before any check")


_reg_alpide2 = register


def register(X, EXTRA):
    _reg_alpide2(X, EXTRA)
    EXTRA.append(lambda F: g_no_panic_fixes(F, X))


def g_fatal_lane_arm(F, X):
    src = X.strip_comments(X.read(X.FP + "/analyze/validators/its/alpide/alpide_readout_frame.rs"))
    body = X.fn_body(src, "validate_inner_lane_groupings")
    v = None
    if body is not None:
        v = not re.search(r"unreachable!|panic!|unimplemented!|todo!|\.expect\s*\(|\[\s*\*?\s*fl\b", body) and bool(re.search(r"_\s*=>\s*(\(\s*\)|\{\s*\})", body))
    F.add("fatal_lane_beyond_barrel_is_ignored", "bool", v, True,
          "alpide_readout_frame.rs validate_inner_lane_groupings: a fatal lane number above 8 takes nothing out of the groupings (no unreachable!/panic! arm)")


_reg_alpide3 = register


def register(X, EXTRA):
    _reg_alpide3(X, EXTRA)
    EXTRA.append(lambda F: g_fatal_lane_arm(F, X))
