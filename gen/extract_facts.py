#!/usr/bin/env python3
"""Source-fact translator: re-reads /repo's current sources and regenerates
coq/Gen/Facts.v (constants, ranges, tables, structural facts) on every run.

Items are located by *name and shape*, never by line number.  Every fact has a
snapshot default (the value at the pinned commit).  When an item cannot be
located (the code was reshaped) the snapshot value is emitted and the fact is
listed under "fallback" in Gen/facts.json: the correspondence check then is
what ties that piece of the model to the code.  When an item IS located its
current value is emitted, so a changed constant changes the model/obligation and
the proofs are re-checked against what the code says now.
"""
import json
import os
import re
import sys

REPO = os.environ.get("FV_REPO", "/repo")
OUT_DIR = os.path.join(os.path.dirname(os.path.abspath(__file__)), "..", "coq", "Gen")

FP = "fastpasta/src"
AR = "alice_protocol_reader/src"


def read(rel):
    try:
        with open(os.path.join(REPO, rel), encoding="utf-8") as f:
            return f.read()
    except OSError:
        return ""


def strip_comments(src):
    # remove // comments (incl. doc comments) and /* */ blocks; keep strings simple
    src = re.sub(r"/\*.*?\*/", "", src, flags=re.S)
    out = []
    for line in src.split("\n"):
        # naive: cut at // when not inside a string literal
        i = 0
        in_str = False
        cut = None
        while i < len(line):
            c = line[i]
            if c == '"' and (i == 0 or line[i - 1] != "\\"):
                in_str = not in_str
            if not in_str and line.startswith("//", i):
                cut = i
                break
            i += 1
        out.append(line if cut is None else line[:cut])
    return "\n".join(out)


def parse_int(tok):
    t = tok.replace("_", "")
    t = re.sub(r"(u8|u16|u32|u64|usize|i64|i32)$", "", t)
    if t.lower().startswith("0x"):
        return int(t, 16)
    if t.lower().startswith("0b"):
        return int(t, 2)
    return int(t)


INT_RE = r"(?:0x[0-9A-Fa-f_]+|0b[01_]+|\d[\d_]*)(?:u8|u16|u32|u64|usize|i64)?"


def fn_body(src, name):
    """text of the body of `fn name` (first occurrence), brace-matched."""
    m = re.search(r"\bfn\s+" + re.escape(name) + r"\b[^{;]*\{", src)
    if not m:
        return None
    i = m.end()
    depth = 1
    while i < len(src) and depth:
        if src[i] == "{":
            depth += 1
        elif src[i] == "}":
            depth -= 1
        i += 1
    return src[m.end(): i - 1]


def block_after(src, pattern):
    m = re.search(pattern, src)
    if not m:
        return None
    i = src.find("{", m.end() - 1)
    if i < 0:
        return None
    depth = 1
    j = i + 1
    while j < len(src) and depth:
        if src[j] == "{":
            depth += 1
        elif src[j] == "}":
            depth -= 1
        j += 1
    return src[i + 1: j - 1]


def literals(text):
    # integer literals that are not part of identifiers / type names / indices like u8
    res = []
    for m in re.finditer(r"(?<![A-Za-z0-9_\.])(" + INT_RE + r")(?![A-Za-z0-9_])", text):
        try:
            res.append(parse_int(m.group(1)))
        except ValueError:
            pass
    return res


class Facts:
    def __init__(self):
        self.defs = []      # (name, coq_type, coq_value)
        self.prov = {}      # name -> {"status": "source"|"fallback", "where": ...}

    def add(self, name, ty, value, default, where):
        if value is None:
            self.prov[name] = {"status": "fallback", "where": where, "value": default}
            value = default
        else:
            self.prov[name] = {"status": "source", "where": where, "value": value,
                               "changed": value != default}
        self.defs.append((name, ty, value))


def coq_val(ty, v):
    if ty == "N":
        return "%d" % v
    if ty == "bool":
        return "true" if v else "false"
    if ty == "list N":
        return "[" + "; ".join("%d" % x for x in v) + "]"
    if ty == "list (N * N)":
        return "[" + "; ".join("(%d, %d)" % (a, b) for a, b in v) + "]"
    if ty == "list (list N)":
        return "[" + "; ".join("[" + "; ".join("%d" % x for x in r) + "]" for r in v) + "]"
    if ty == "list (list (list N))":
        return "[" + ";\n   ".join(
            "[" + "; ".join("[" + "; ".join("%d" % x for x in r) + "]" for r in t) + "]" for t in v) + "]"
    raise ValueError(ty)


def const_in(src, name):
    m = re.search(r"\bconst\s+" + re.escape(name) + r"\s*:\s*[A-Za-z0-9_<>]+\s*=\s*(" + INT_RE + r")\s*;", src)
    return parse_int(m.group(1)) if m else None


def range_const(src, name):
    m = re.search(r"\bconst\s+" + re.escape(name) + r"\s*:\s*RangeInclusive<u8>\s*=\s*(" + INT_RE + r")\s*\.\.=\s*(" + INT_RE + r")\s*;", src)
    return [parse_int(m.group(1)), parse_int(m.group(2))] if m else None


def impl_const(src, ty, name):
    blk = block_after(src, r"\bimpl\s+" + re.escape(ty) + r"\s*\{")
    if blk is None:
        return None
    return const_in(blk, name)


def fn_lits(src, name):
    b = fn_body(src, name)
    return None if b is None else literals(b)


# ----------------------------------------------------------------------------------
def g1_words(F):
    sw = FP + "/words/its/status_words/"
    ihw = strip_comments(read(sw + "ihw.rs"))
    tdh = strip_comments(read(sw + "tdh.rs"))
    tdt = strip_comments(read(sw + "tdt.rs"))
    ddw = strip_comments(read(sw + "ddw.rs"))
    cdw = strip_comments(read(sw + "cdw.rs"))
    dw = strip_comments(read(FP + "/words/its/data_words.rs"))
    util = strip_comments(read(sw + "util.rs"))
    F.add("ihw_id", "N", impl_const(ihw, "Ihw", "ID"), 0xE0, sw + "ihw.rs: Ihw::ID")
    F.add("tdh_id", "N", impl_const(tdh, "Tdh", "ID"), 0xE8, sw + "tdh.rs: Tdh::ID")
    F.add("tdt_id", "N", impl_const(tdt, "Tdt", "ID"), 0xF0, sw + "tdt.rs: Tdt::ID")
    F.add("ddw0_id", "N", impl_const(ddw, "Ddw0", "ID"), 0xE4, sw + "ddw.rs: Ddw0::ID")
    F.add("cdw_id", "N", impl_const(cdw, "Cdw", "ID"), 0xF8, sw + "cdw.rs: Cdw::ID")
    F.add("tdh_max_bc", "N", impl_const(tdh, "Tdh", "MAX_BC"), 3563, sw + "tdh.rs: Tdh::MAX_BC")
    for nm, dflt in [("VALID_IL_ID", [0x20, 0x28]),
                     ("VALID_ML_CONNECT0_ID", [0x43, 0x46]), ("VALID_ML_CONNECT1_ID", [0x48, 0x4B]),
                     ("VALID_ML_CONNECT2_ID", [0x53, 0x56]), ("VALID_ML_CONNECT3_ID", [0x58, 0x5B]),
                     ("VALID_OL_CONNECT0_ID", [0x40, 0x46]), ("VALID_OL_CONNECT1_ID", [0x48, 0x4E]),
                     ("VALID_OL_CONNECT2_ID", [0x50, 0x56]), ("VALID_OL_CONNECT3_ID", [0x58, 0x5E])]:
        F.add(nm.lower(), "list N", range_const(dw, nm), dflt, FP + "/words/its/data_words.rs: " + nm)
    # literal pins of the bit-field accessors (ordered literal lists of each accessor body)
    pins = [
        ("ihw", ihw, "reserved", [28, 0xF, 0xFF, 36, 4]),
        ("ihw", ihw, "active_lanes", [0xFFFFFFF]),
        ("tdh", tdh, "reserved0", [0xFF]),
        ("tdh", tdh, "reserved1", [0xF000]),
        ("tdh", tdh, "trigger_bc", [0x0FFF]),
        ("tdh", tdh, "reserved2", [0x8000]),
        ("tdh", tdh, "continuation", [0x4000, 14]),
        ("tdh", tdh, "no_data", [0x2000, 13]),
        ("tdh", tdh, "internal_trigger", [0x1000, 12]),
        ("tdh", tdh, "trigger_type", [0xFFF]),
        ("tdt", tdt, "reserved0", [4]),
        ("tdt", tdt, "reserved1", [0b0100]),
        ("tdt", tdt, "reserved2", [0b0001_1111]),
        ("tdt", tdt, "packet_done", [1, 1]),
        ("ddw0", ddw, "index", [0xF0, 4]),
        ("ddw0", ddw, "reserved0_1", [0b0000_0101]),
        ("ddw0", ddw, "is_reserved_0", [0, 0xFF00_0000_0000_0000, 0]),
        ("cdw", cdw, "calibration_word_index", [16, 48]),
        ("cdw", cdw, "calibration_user_fields", [0xFFFF_FFFF_FFFF]),
        ("dw", dw, "ob_data_word_id_to_lane", [7, 14, 21]),
        ("dw", dw, "ob_data_word_id_to_input_number_connector", [0b111]),
        ("dw", dw, "ib_data_word_id_to_lane", [0x1F]),
        ("util", util, "is_lane_active", [1, 0]),
        ("util", util, "tdh_no_data", [1, 0b10_0000, 0]),
        ("util", util, "tdh_continuation", [1, 0b100_0000, 0]),
        ("util", util, "tdt_packet_done", [8, 0b1, 0]),
    ]
    for pre, src, fn, dflt in pins:
        v = fn_lits(src, fn)
        if v is not None and fn in ("tdh_no_data", "tdh_continuation", "tdt_packet_done"):
            v = [x for x in v if x != 10]  # drop the debug_assert length literal
        F.add("pin_%s_%s" % (pre, fn), "list N", v, dflt, "%s fn %s literals" % (pre, fn))


def main():
    F = Facts()
    g1_words(F)
    for mod in EXTRA:
        mod(F)
    os.makedirs(OUT_DIR, exist_ok=True)
    lines = ["(* GENERATED by gen/extract_facts.py from the current /repo sources. Do not edit. *)",
             "From Coq Require Import List NArith.", "Import ListNotations.", "Open Scope N_scope.", ""]
    for name, ty, v in F.defs:
        lines.append("Definition %s : %s := %s." % (name, ty, coq_val(ty, v)))
    text = "\n".join(lines) + "\n"
    path = os.path.join(OUT_DIR, "Facts.v")
    old = None
    try:
        with open(path) as f:
            old = f.read()
    except OSError:
        pass
    if old != text:
        with open(path, "w") as f:
            f.write(text)
    with open(os.path.join(OUT_DIR, "facts.json"), "w") as f:
        json.dump(F.prov, f, indent=1, sort_keys=True)
    fb = [k for k, v in F.prov.items() if v["status"] == "fallback"]
    ch = [k for k, v in F.prov.items() if v.get("changed")]
    print("gen: %d facts, %d fallback, %d changed vs snapshot" % (len(F.defs), len(fb), len(ch)))
    if fb:
        print("gen: fallback: " + " ".join(fb))
    if ch:
        print("gen: changed: " + " ".join(ch))


EXTRA = []

if __name__ == "__main__":
    # further fact groups live in gen/facts_*.py and register themselves in EXTRA
    here = os.path.dirname(os.path.abspath(__file__))
    sys.path.insert(0, here)
    for fn in sorted(os.listdir(here)):
        if fn.startswith("facts_") and fn.endswith(".py"):
            mod = __import__(fn[:-3])
            if hasattr(mod, "register"):
                mod.register(sys.modules[__name__], EXTRA)
    main()
