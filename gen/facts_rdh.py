"""G1: constants of the RDH validators and the input scanner."""
import re


def g(F, X):
    v = X.strip_comments(X.read(X.FP + "/analyze/validators/rdh.rs"))
    # FEE_ID_SANITY_VALIDATOR: FeeIdSanityValidator::new((a, b), (c, d))
    m = re.search(r"FeeIdSanityValidator::new\(\s*\(\s*(\d+)\s*,\s*(\d+)\s*\)\s*,\s*\(\s*(\d+)\s*,\s*(\d+)\s*\)\s*\)", v)
    vals = [int(x) for x in m.groups()] if m else [None] * 4
    F.add("fee_layer_min", "N", vals[0], 0, "rdh.rs FEE_ID_SANITY_VALIDATOR layer min")
    F.add("fee_layer_max", "N", vals[1], 6, "rdh.rs FEE_ID_SANITY_VALIDATOR layer max")
    F.add("fee_stave_min", "N", vals[2], 0, "rdh.rs FEE_ID_SANITY_VALIDATOR stave min")
    F.add("fee_stave_max", "N", vals[3], 47, "rdh.rs FEE_ID_SANITY_VALIDATOR stave max")
    m = re.search(r"let\s+reserved_bits_mask\s*:\s*u16\s*=\s*(" + X.INT_RE + r")\s*;", v)
    F.add("fee_reserved_mask", "N", X.parse_int(m.group(1)) if m else None, 0b1000_1100_1100_0000, "rdh.rs FeeIdSanityValidator reserved_bits_mask")
    F.add("its_system_id", "N", X.const_in(v, "ITS_SYSTEM_ID"), 32, "rdh.rs ITS_SYSTEM_ID")
    blk = X.block_after(v, r"\bimpl\s+Rdh1Validator\s*\{")
    F.add("rdh_bc_max", "N", X.const_in(blk or "", "BC_MAX"), 0xdeb, "rdh.rs Rdh1Validator::BC_MAX")
    m = re.search(r"let\s+spare_bits_15_to_26_set\s*:\s*u32\s*=\s*(" + X.INT_RE + r")\s*;", v)
    F.add("trigger_spare_mask", "N", X.parse_int(m.group(1)) if m else None, 0b0000_0111_1111_1111_1000_0000_0000_0000, "rdh.rs Rdh2Validator spare bits mask")
    m = re.search(r"let\s+reserved_bits_12_to_23_set\s*:\s*u32\s*=\s*(" + X.INT_RE + r")\s*;", v)
    F.add("detfield_reserved_mask", "N", X.parse_int(m.group(1)) if m else None, 0b1111_1111_1111_0000_0000_0000, "rdh.rs Rdh3Validator detector field reserved mask")
    r0 = X.strip_comments(X.read(X.AR + "/rdh/rdh0.rs"))
    F.add("rdh_header_size", "N", X.impl_const(r0, "Rdh0", "HEADER_SIZE"), 0x40, "rdh0.rs Rdh0::HEADER_SIZE")
    # scanner
    sc = X.strip_comments(X.read(X.AR + "/input_scanner.rs"))
    body = X.fn_body(sc, "sanity_check_offset_next") or ""
    m = re.search(r"\(\s*(" + X.INT_RE + r")\s*\.\.=\s*(" + X.INT_RE + r")\s*\)\s*\.contains", body)
    F.add("offset_window_lo", "N", X.parse_int(m.group(1)) if m else None, 0, "input_scanner.rs sanity_check_offset_next window low")
    F.add("offset_window_hi", "N", X.parse_int(m.group(2)) if m else None, 10000, "input_scanner.rs sanity_check_offset_next window high")
    m = re.search(r"let\s+layer_stave_mask\s*:\s*u16\s*=\s*(" + X.INT_RE + r")\s*;", sc)
    F.add("layer_stave_mask", "N", X.parse_int(m.group(1)) if m else None, 0b0111_0000_0011_1111, "input_scanner.rs is_match_feeid_layer_stave mask")
    lib = X.strip_comments(X.read(X.AR + "/lib.rs"))
    F.add("reader_batch_channel_cap", "N", X.const_in(lib, "CHANNEL_CDP_BATCH_CAPACITY"), 100, "alice_protocol_reader lib.rs CHANNEL_CDP_BATCH_CAPACITY")
    # batch size CAP used by fastpasta: spawn_reader::<T, 100> / CdpArray<T, 100>
    fl = X.strip_comments(X.read(X.FP + "/lib.rs"))
    m = re.search(r"process::<\s*RdhCru\s*,\s*(\d+)\s*>", fl) or re.search(r"const\s+CDP_BATCH_CAP\w*\s*:\s*usize\s*=\s*(\d+)", fl)
    F.add("batch_cap", "N", int(m.group(1)) if m else None, 100, "fastpasta lib.rs reader batch size")
    # payload preprocessing thresholds
    pl = X.strip_comments(X.read(X.FP + "/analyze/validators/lib.rs"))
    b1 = X.fn_body(pl, "extract_payload_ff_padding") or ""
    m = re.search(r"\.len\(\)\s*>\s*(\d+)", b1)
    F.add("ff_padding_max", "N", int(m.group(1)) if m else None, 15, "validators/lib.rs extract_payload_ff_padding limit")
    b2 = X.fn_body(pl, "chunkify_payload") or ""
    m = re.search(r"ff_padding\.len\(\)\s*>\s*(\d+)", b2)
    F.add("ff_padding_word_threshold", "N", int(m.group(1)) if m else None, 9, "validators/lib.rs chunkify_payload padding threshold")
    F.add("pin_chunk_sizes", "list N", [int(x) for x in re.findall(r"chunks_exact\(\s*(\d+)\s*\)", b2)] or None, [16, 10, 10], "validators/lib.rs chunkify_payload chunk sizes")
    b3 = X.fn_body(pl, "detect_payload_data_format") or ""
    F.add("pin_detect_format", "list N", X.literals(b3) if b3 else None, [10, 6, 0x00, 6], "validators/lib.rs detect_payload_data_format literals")


def register(X, EXTRA):
    EXTRA.append(lambda F: g(F, X))
