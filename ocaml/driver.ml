(* Driver for the extracted model (`fpmodel`): reads the same case lines as fp_harness and
   prints the model's result and, where one exists, the specification oracle's verdict. *)
open Model

let rec pos_of_int i =
  if i = 1 then XH else if i land 1 = 1 then XI (pos_of_int (i lsr 1)) else XO (pos_of_int (i lsr 1))
let n_of_int i = if i = 0 then N0 else Npos (pos_of_int i)
let rec int_of_pos = function XH -> 1 | XO p -> 2 * int_of_pos p | XI p -> 2 * int_of_pos p + 1
let int_of_n = function N0 -> 0 | Npos p -> int_of_pos p
let rec nat_of_int i = if i = 0 then O else S (nat_of_int (i - 1))
let rec int_of_nat = function O -> 0 | S n -> 1 + int_of_nat n

let byte_tab = Array.init 256 n_of_int
let hexval c =
  match c with
  | '0' .. '9' -> Char.code c - 48
  | 'a' .. 'f' -> Char.code c - 87
  | 'A' .. 'F' -> Char.code c - 55
  | _ -> failwith "hex"
let bytes_of_hex (s : string) : n list =
  let l = String.length s / 2 in
  let rec go i acc = if i < 0 then acc else go (i - 1) (byte_tab.(hexval s.[2 * i] * 16 + hexval s.[2 * i + 1]) :: acc) in
  go (l - 1) []
let hex_of_bytes (l : n list) : string =
  String.concat "" (List.map (fun b -> Printf.sprintf "%02X" (int_of_n b)) l)

let split_ws s = List.filter (fun x -> x <> "") (String.split_on_char ' ' s)

let tag = function SR_id -> "I" | SR_reserved -> "R" | SR_trigger -> "T" | SR_index -> "X"
let tags l = if l = [] then "ok" else "err " ^ String.concat "" (List.map tag l)
let b2s b = if b then "1" else "0"
let codes l = if l = [] then "-" else String.concat "," (List.map (fun c -> string_of_int (int_of_n c)) l)

(* ------------------------------------------------------------------ words *)
let words_case toks =
  match toks with
  | [ "ihw"; h ] -> let w = bytes_of_hex h in tags (ihw_sanity w) ^ " | " ^ b2s (ihw_okb w)
  | [ "tdh"; h ] -> let w = bytes_of_hex h in tags (tdh_sanity w) ^ " | " ^ b2s (tdh_okb w)
  | [ "tdt"; h ] -> let w = bytes_of_hex h in tags (tdt_sanity w) ^ " | " ^ b2s (tdt_okb w)
  | [ "ddw0"; h ] -> let w = bytes_of_hex h in tags (ddw0_sanity w) ^ " | " ^ b2s (ddw0_okb w)
  | [ "data"; h; lanes; running ] ->
      let w = bytes_of_hex h in
      let lanes = n_of_int (int_of_string ("0x" ^ lanes)) in
      let r = running = "1" in
      let id = List.nth w 9 in
      codes (data_word_codes r w lanes) ^ " | "
      ^ (if valid_data_id id then codes (data_word_verdict r id lanes) else "70+")
  | _ -> "unknown"

(* ------------------------------------------------------------------ fsm *)
let fsm_case toks =
  match toks with
  | [ ws ] ->
      let words = List.map bytes_of_hex (String.split_on_char ',' ws) in
      let buf = Buffer.create 64 and sbuf = Buffer.create 64 in
      let st = ref S_InitialIHW and d = ref D_IHW in
      List.iter
        (fun w ->
          let st', r = advance !st w in
          st := st';
          Buffer.add_string buf (Printf.sprintf "%d:%d " (int_of_n (fres_id r)) (int_of_n (fstate_id st')));
          let d', v = dstep !d (List.nth w 9) (sl_tdh_no_data w) (sl_tdt_packet_done w) in
          d := d';
          Buffer.add_string sbuf (Printf.sprintf "%d:%d " (int_of_n (dverdict_id v)) (int_of_n (dstate_id d'))))
        words;
      String.trim (Buffer.contents buf) ^ " | " ^ String.trim (Buffer.contents sbuf)
  | [ "abs_table" ; _ ] | _ ->
      String.concat " " (List.map (fun s -> Printf.sprintf "%d:%d" (int_of_n (fstate_id s)) (int_of_n (dstate_id (abs s)))) all_fstates)

(* ------------------------------------------------------------------ link / dispatch *)
let opt_n s = if s = "-" then None else Some (n_of_int (int_of_string s))

(* tiny parser for the custom-checks json the harness gets: {"rdh_version":7,"chip_count_ob":7,"chip_orders_ob":[[0,1],[2]]} *)
let find_after s key =
  let k = "\"" ^ key ^ "\":" in
  let lk = String.length k and ls = String.length s in
  let rec go i = if i + lk > ls then None else if String.sub s i lk = k then Some (i + lk) else go (i + 1) in
  go 0
let json_int s key =
  match find_after s key with
  | None -> None
  | Some i ->
      let j = ref i in
      while !j < String.length s && s.[!j] >= '0' && s.[!j] <= '9' do incr j done;
      if !j = i then None else Some (n_of_int (int_of_string (String.sub s i (!j - i))))
let json_orders s =
  match find_after s "chip_orders_ob" with
  | None -> None
  | Some i ->
      if i < String.length s && s.[i] = 'n' then None else begin
      (* parse [[a,b],[c]] *)
      let depth = ref 0 and j = ref i and cur = ref [] and all = ref [] and num = ref (-1) in
      let fin = ref false in
      while not !fin do
        let c = s.[!j] in
        (match c with
         | '[' -> incr depth; if !depth = 2 then cur := []
         | ']' ->
             if !num >= 0 then begin cur := n_of_int !num :: !cur; num := -1 end;
             if !depth = 2 then all := List.rev !cur :: !all;
             decr depth; if !depth = 0 then fin := true
         | ',' -> if !num >= 0 then begin cur := n_of_int !num :: !cur; num := -1 end
         | '0' .. '9' -> num := (if !num < 0 then 0 else !num) * 10 + (Char.code c - 48)
         | _ -> ());
        incr j
      done;
      Some (List.rev !all) end

let parse_vcfg head =
  match split_ws head with
  | [ mode; target; period; custom ] ->
      let running = mode = "all" in
      let tg = match target with "none" -> T_none | "its" -> T_its | _ -> T_stave in
      let cv, cc, co =
        if custom = "-" then (None, None, None)
        else (json_int custom "rdh_version", json_int custom "chip_count_ob", json_orders custom) in
      { v_running = running; v_target = tg; v_period = opt_n period; v_custom_version = cv; v_chip_count = cc; v_chip_orders = co }
  | _ -> failwith "cfg"

let parse_cdps body =
  List.map
    (fun tok ->
      match String.split_on_char ':' tok with
      | [ off; rdh; payload ] ->
          { c_rdh = decode_rdh (bytes_of_hex rdh); c_payload = bytes_of_hex payload; c_off = n_of_int (int_of_string ("0x" ^ off)) }
      | [ off; rdh ] -> { c_rdh = decode_rdh (bytes_of_hex rdh); c_payload = []; c_off = n_of_int (int_of_string ("0x" ^ off)) }
      | _ -> failwith "cdp")
    (split_ws body)

(* the tags of the stave-level frame messages (which lanes, which sub-checks) are printed by the `linkt` stream only: the
   implementation omits that text when errors are muted, which is how the other streams run it *)
let show_frame_tags = ref false
let fmt_msg = function
  | VErr e ->
      let c = int_of_n e.e_code in
      Printf.sprintf "E:%X:%d:%s:%s" (int_of_n e.e_off) c
        (match e.e_word with Some w -> hex_of_bytes w | None -> "-")
        (if c >= 72 && c <= 75 && not !show_frame_tags then ""
         else String.concat "," (List.map (fun t -> string_of_int (int_of_n t)) e.e_tags))
  | VStats f -> "A:" ^ String.concat "," (List.map (fun x -> string_of_int (int_of_n x)) (rflags_list f))

let fmt_msgs l = if l = [] then "-" else String.concat " " (List.map fmt_msg l)

let split_head line =
  match String.index_opt line ';' with
  | Some i -> (String.sub line 0 i, String.sub line (i + 1) (String.length line - i - 1))
  | None -> failwith "no ;"

let link_line line =
  let head, body = split_head line in
  let c = parse_vcfg head in
  match run_validator c (parse_cdps body) with
  | Ok m -> fmt_msgs m
  | Panic s -> "PANIC:" ^ string_of_int (int_of_n s)

let dispatch_line line =
  let head, body = split_head line in
  let c = parse_vcfg head in
  String.concat " ; "
    (List.map
       (fun (id, r) ->
         Printf.sprintf "%d= %s" (int_of_n id)
           (match r with Ok m -> fmt_msgs m | Panic s -> "PANIC:" ^ string_of_int (int_of_n s)))
       (run_dispatch c (parse_cdps body)))


(* ------------------------------------------------------------------ prep (C12) *)
let prep_line line =
  let p = if String.trim line = "-" then [] else bytes_of_hex (String.trim line) in
  match preprocess p with
  | Prep_err _ -> "err"
  | Prep_ok (slot, chunks) ->
      if chunks = [] then "ok 0 -"
      else Printf.sprintf "ok %d %s" (int_of_nat slot)
             (String.concat "," (List.map (fun c -> hex_of_bytes (take (nat_of_int 10) c)) chunks))

(* ------------------------------------------------------------------ rdhspec (C10): the documented rules *)
(* same line format as `link`; per RDH: "<sane><running_violation>" from Spec/RdhRules.v *)
let rdhspec_line line =
  let head, body = split_head line in
  let toks = split_ws head in
  let its = (List.nth toks 1) <> "none" in
  let custom = List.nth toks 3 in
  let cv = if custom = "-" then None else json_int custom "rdh_version" in
  let rdhs =
    List.map (fun tok -> match String.split_on_char ':' tok with
                         | _ :: rdh :: _ -> bytes_of_hex rdh
                         | _ -> failwith "cdp") (split_ws body) in
  let first = match cv, rdhs with
    | Some v, _ -> v
    | None, b :: _ -> h_header_id b
    | None, [] -> N0 in
  let buf = Buffer.create 64 in
  let hist = ref [] in
  List.iter (fun b ->
      Buffer.add_string buf (b2s (rdh_sane first its b));
      Buffer.add_string buf (b2s (running_violation (List.rev !hist) b));
      Buffer.add_char buf ' ';
      hist := b :: !hist) rdhs;
  String.trim (Buffer.contents buf)


(* ------------------------------------------------------------------ scan (C03 C08 C18) *)
let crc_table =
  Array.init 256 (fun n ->
      let c = ref n in
      for _ = 0 to 7 do
        if !c land 1 <> 0 then c := (!c lsr 1) lxor 0xEDB88320 else c := !c lsr 1
      done;
      !c)
let crc32_bytes (crc : int) (l : n list) : int =
  let c = ref (crc lxor 0xFFFFFFFF) in
  List.iter (fun b -> c := crc_table.((!c lxor int_of_n b) land 0xFF) lxor (!c lsr 8)) l;
  !c lxor 0xFFFFFFFF
let crc32_string (s : string) : int =
  let c = ref 0xFFFFFFFF in
  String.iter (fun ch -> c := crc_table.((!c lxor Char.code ch) land 0xFF) lxor (!c lsr 8)) s;
  !c lxor 0xFFFFFFFF

(* N -> decimal string without going through int for large values (they all fit in 63 bits here) *)
let dec n = string_of_int (int_of_n n)

let field_sig (r : rdh) : string =
  String.concat ","
    [ dec r.r_header_id; dec r.r_header_size; dec r.r_fee_id; dec r.r_priority_bit; dec r.r_system_id;
      dec r.r_rdh0_reserved0; dec r.r_offset_new_packet; dec (rdh_payload_size r); dec r.r_link_id;
      dec r.r_packet_counter; dec (rdh_cru_id r); dec (rdh_dw r); dec (rdh_bc r); dec (rdh1_reserved0 r);
      dec r.r_orbit; dec (rdh_data_format r); dec r.r_trigger_type; dec r.r_pages_counter; dec r.r_stop_bit;
      dec r.r_rdh2_reserved0; dec r.r_detector_field; dec r.r_par_bit; dec r.r_rdh3_reserved0 ]

let fmt_instat = function
  | IS_fatal m -> Printf.sprintf "X@%X" (int_of_n m)
  | IS_error (c, m) -> Printf.sprintf "E%d@%X" (int_of_n c) (int_of_n m)
  | IS_trig t -> "T" ^ dec t | IS_fmt f -> "D" ^ dec f | IS_sysid y -> "Y" ^ dec y
  | IS_link l -> "L" ^ dec l | IS_fee f -> "F" ^ dec f
  | IS_seen n -> "S" ^ dec n | IS_filtered n -> "R" ^ dec n | IS_payload n -> "P" ^ dec n

let parse_scfg src filter skip =
  let flt =
    match String.split_on_char ':' filter with
    | [ "link"; v ] -> Some (F_link (n_of_int (int_of_string v)))
    | [ "fee"; v ] -> Some (F_fee (n_of_int (int_of_string v)))
    | [ "stave"; v ] -> Some (F_stave (n_of_int (int_of_string v)))
    | _ -> None in
  { sc_filter = flt; sc_skip = (skip = "1"); sc_src = (if src = "pipe" then Src_pipe else Src_file) }

let fmt_cdp (p : cdp) =
  Printf.sprintf "%X:%d:%08X:%08X" (int_of_n p.c_off) (List.length p.c_payload)
    (crc32_bytes (crc32_bytes 0 (encode_rdh p.c_rdh)) p.c_payload)
    (crc32_string (field_sig p.c_rdh))

let scan_with mode line =
  match split_ws line with
  | [ src; filter; skip; hex ] ->
      let input = if hex = "-" then [] else bytes_of_hex hex in
      if List.length input < 8 then "NO_RDH0"
      else begin
        let c = parse_scfg src filter skip in
        let o = match mode with `Impl -> scan_impl c input | `Fixed -> scan true true c input in
        let bs = List.map (fun b -> String.concat " " (List.map fmt_cdp b)) o.so_batches in
        (if bs = [] then "-" else String.concat " / " bs) ^ " | " ^ String.concat " " (List.map fmt_instat o.so_stats)
        ^ (match o.so_end with End_fuel -> " | FUEL" | _ -> "")
      end
  | _ -> "unknown"

(* written: same line format as scan; bytes the writer produces, as "<length> <crc32>" *)
let written_line line =
  match split_ws line with
  | [ src; filter; skip; hex ] ->
      let input = if hex = "-" then [] else bytes_of_hex hex in
      if List.length input < 8 then "NO_RDH0"
      else begin
        let c = parse_scfg src filter skip in
        let out = written (n_of_int 1048576) c input in
        Printf.sprintf "%d %08X" (List.length out) (crc32_bytes 0 out)
      end
  | _ -> "unknown"

(* wordspec: same line format as `link`; for every payload word, in order, the class the FSM assigns
   (model of advance, proved equal to the documented diagram in C09) and the documented sanity verdict
   for that class (Spec/WordLayout.v): "<class>:<ok>" ; packets separated by "/" ; "P" = payload skipped *)
let wordspec_line line =
  let _, body = split_head line in
  let cdps = parse_cdps body in
  let st = ref S_InitialIHW in
  String.concat " / "
    (List.map
       (fun p ->
         match preprocess p.c_payload with
         | Prep_err _ -> st := S_InitialIHW; "P"
         | Prep_ok (_, chunks) ->
             if p.c_payload = [] then "-" else
             String.concat " "
               (List.map
                  (fun ch ->
                    let w = take (nat_of_int 10) ch in
                    let st', r = advance !st w in
                    st := st';
                    let cls = int_of_n (fres_id r) in
                    let ok =
                      match r with
                      | F_ok P_IHW | F_ok P_IHW_cont -> b2s (ihw_okb w)
                      | F_ok P_TDH | F_ok P_TDH_cont | F_ok P_TDH_after_done | F_amb A_TDH_or_DDW0 -> b2s (tdh_okb w)
                      | F_ok P_TDT -> b2s (tdt_okb w)
                      | F_ok P_DDW0 | F_amb A_DDW0_or_TDH_IHW -> b2s (ddw0_okb w)
                      | _ -> "-" in
                    Printf.sprintf "%d:%s" cls ok)
                  chunks))
       cdps)

(* writer: <max> <batch sizes> <well-framed input hex>: the writer model alone, with a chosen flush threshold *)
let writer_line line =
  match split_ws line with
  | [ mx; sizes; hex ] ->
      let input = if hex = "-" then [] else bytes_of_hex hex in
      let c = { sc_filter = None; sc_skip = false; sc_src = Src_file } in
      let cdps = List.concat (scan true true c input).so_batches in
      let sizes = List.map int_of_string (String.split_on_char ',' sizes) in
      let rec take_n n l = if n = 0 then ([], l) else match l with [] -> ([], []) | x :: r -> let a, b = take_n (n - 1) r in (x :: a, b) in
      let rec group k l =
        if l = [] then [] else
          let sz = max 1 (min 100 (List.nth sizes (min k (List.length sizes - 1)))) in
          let a, b = take_n sz l in a :: group (k + 1) b in
      let out = write_all (n_of_int (int_of_string mx)) (group 0 cdps) in
      Printf.sprintf "%d %08X" (List.length out) (crc32_bytes 0 out)
  | _ -> "unknown"

(* ------------------------------------------------------------------ collector (C05 C14 C15 C16) *)
let parse_ctok t =
  let k = t.[0] and v = String.sub t 1 (String.length t - 1) in
  let n s = n_of_int (int_of_string s) in
  match k with
  | 'S' -> CS_seen (n v) | 'R' -> CS_filtered (n v) | 'P' -> CS_payload (n v) | 'H' -> CS_hbfs (n v)
  | 'T' -> CS_trigger (n ("0x" ^ v))
  | 'A' -> (match List.map n (String.split_on_char '.' v) with
            | [ a; b; c; d; e; f; g ] -> CS_alpide { rf_trailers = a; rf_busy_viol = b; rf_overrun = c; rf_fatal = d; rf_flushed = e; rf_strobe = f; rf_busy_trans = g }
            | _ -> failwith "A")
  | 'L' -> CS_link (n v) | 'F' -> CS_fee (n v)
  | 'Y' -> (match String.split_on_char '.' v with [ l; s ] -> CS_layer_stave (n l, n s) | _ -> failwith "Y")
  | 'V' -> CS_version (n v) | 'D' -> CS_format (n v) | 'I' -> CS_sysid (n v) | 'G' -> CS_run_trigger (n v)
  | 'E' -> (match String.split_on_char '.' v with
            | off :: code :: body :: rest ->
                CS_error { m_off = n ("0x" ^ off); m_codes = [ n code ]; m_body = n body;
                           m_fee = (match rest with [ f ] -> Some (n f) | _ -> None) }
            | _ -> failwith "E")
  | 'X' -> CS_fatal { m_off = N0; m_codes = []; m_body = n v; m_fee = None }
  | _ -> failwith ("token " ^ t)

let ns l = String.concat "," (List.map dec l)
let fmt_emsg m = Printf.sprintf "%X.%s.%s" (int_of_n m.m_off) (ns m.m_codes) (dec m.m_body)
let opt = function Some x -> dec x | None -> "-"
let fmt_cstate s =
  Printf.sprintf "C:%s L:%s F:%s Y:%s O:%s,%s,%s,%s E:%s T:%s U:%s W:%s Z:%s X:%s"
    (ns s.k_counters) (ns s.k_links) (ns s.k_fees)
    (String.concat "," (List.map (fun (l, st) -> dec l ^ "." ^ dec st) s.k_layer_staves))
    (opt s.k_version) (opt s.k_format) (opt s.k_sysid) (opt s.k_run_trigger)
    (String.concat ";" (List.map fmt_emsg s.k_errors)) (dec s.k_total) (ns s.k_unique)
    (match s.k_staves_err with None -> "-" | Some l -> String.concat "," (List.map (fun (l, st) -> dec l ^ "." ^ dec st) l))
    (match s.k_fatal with None -> "-" | Some m -> dec m.m_body)
    (b2s s.k_set_twice)

let collector_line line =
  let head, body = split_head line in
  let h = split_ws head in
  let mute = List.nth h 0 = "1" in
  let sched = if List.length h > 1 && List.nth h 1 <> "-" then List.map int_of_string (String.split_on_char ',' (List.nth h 1)) else [] in
  let streams = Array.of_list (List.map (fun s -> ref (List.map parse_ctok (split_ws s))) (String.split_on_char '|' body)) in
  let arrival = ref [] in
  List.iter (fun i -> match !(streams.(i)) with x :: r -> arrival := x :: !arrival; streams.(i) := r | [] -> ()) sched;
  Array.iter (fun s -> List.iter (fun x -> arrival := x :: !arrival) !s; s := []) streams;
  let a = List.rev !arrival in
  fmt_cstate (finalize error_sort_when_muted mute (collect_all a))

(* statscmp: <collected tree> <file tree> [flag 0|1] -- the mismatches StatsCollector::validate_other_stats reports, in order,
   and the any-errors flag afterwards.  tree = top;rdh;its;trg;err;alp  (values of a struct separated by ','; alp = ~ or top/rof);
   a value is the hex of its canonical text: leaves are compared as strings *)
let statscmp_line line =
  let vals s = String.split_on_char ',' s in
  let tree s =
    match String.split_on_char ';' s with
    | [ top; rdh; its; trg; err; alp ] ->
        { s_top = vals top; s_rdh = { r_top = vals rdh; r_its = vals its; r_trg = vals trg }; s_err = vals err;
          s_alp = (if alp = "~" then None else match String.split_on_char '/' alp with
                   | [ t; r ] -> Some { a_top = vals t; a_rof = vals r } | _ -> failwith "alp") }
    | _ -> failwith "tree" in
  match split_ws line with
  | a :: b :: rest ->
      let flag = (match rest with [ "1" ] -> true | _ -> false) in
      let r = sc_validate (fun (x : string) y -> x = y) "" (tree a) (tree b) in
      let tag = function ST_sc -> "sc" | ST_rdh -> "rdh" | ST_err -> "err" | ST_trg -> "trg" | ST_its -> "its" | ST_alp -> "alp" | ST_rof -> "rof" | ST_alp_missing -> "alpmissing" in
      let ms = List.map (fun (t, i) -> tag t ^ ":" ^ string_of_int (int_of_n i)) r in
      Printf.sprintf "mism=%s flag=%d" (if ms = [] then "-" else String.concat "," ms) (if flag_after_compare flag (r <> []) then 1 else 0)
  | _ -> "BAD"

(* statsfile: <old hex|-> <new hex|-> -- the bytes of the statistics file after writing `new` over a file holding `old` *)
let statsfile_line line =
  match split_ws line with
  | [ o; n ] ->
      let l x = if x = "-" then [] else bytes_of_hex x in
      hex_of_bytes (written_file stats_file_replaced_on_write (l o) (l n))
  | _ -> "BAD"

(* stats: <src> <filter> <skip> <analysed 0|1> <input hex> -- scanner + forwarding + analysis statistics + collector *)
let stats_line line =
  match split_ws line with
  | [ src; filter; skip; analysed; hex ] ->
      let input = if hex = "-" then [] else bytes_of_hex hex in
      if List.length input < 64 then "SHORT"
      else begin
        let c = parse_scfg src filter skip in
        let out = scan_impl c input in
        let version = List.hd input in
        let a = stats_arrival version out (analysed = "1") in
        fmt_cstate (finalize error_sort_when_muted false (collect_all a))
      end
  | _ -> "unknown"

(* view: <rdh|frames|data> <file|pipe> <filter> <hex input> -- the rows of a view, batch by batch, as tokens *)
let view_line line =
  match split_ws line with
  | [ which; src; filter; hex ] ->
      let input = if hex = "-" then [] else bytes_of_hex hex in
      if List.length input < 64 then "SHORT"
      else begin
        let c = parse_scfg src filter (if which = "rdh" then "1" else "0") in
        let out = scan_impl c input in
        let nl l = String.concat "," (List.map (fun x -> string_of_int (int_of_n x)) l) in
        let kind = function VK_data -> "DATA" | VK_tdh -> "TDH" | VK_tdt -> "TDT" | VK_ihw -> "IHW" | VK_ddw0 -> "DDW" | VK_cdw -> "CDW" in
        let row = function
          | VR_rdh (o, v) -> Printf.sprintf "R:%X:%s" (int_of_n o) (nl v)
          | VR_frdh (o, v) -> Printf.sprintf "H:%X:%s" (int_of_n o) (nl v)
          | VR_word (o, k, b, a) -> Printf.sprintf "W:%X:%s:%s:%s" (int_of_n o) (kind k) (hex_of_bytes b) (nl a)
          | VR_unknown (o, b) -> Printf.sprintf "U:%X:%s" (int_of_n o) (hex_of_bytes b) in
        let buf = Buffer.create 4096 in
        let stop = ref false in
        List.iter (fun batch ->
          if not !stop then begin
            let rows, e =
              if which = "rdh" then (view_rdh batch, VE_done) else view_frames (which = "data") batch in
            List.iter (fun r -> Buffer.add_string buf (row r); Buffer.add_char buf ' ') rows;
            (match e with
             | VE_done -> ()
             | VE_payload_error o -> Buffer.add_string buf (Printf.sprintf "END:payload_error:%X " (int_of_n o)); stop := true
             | VE_panic s -> Buffer.add_string buf (Printf.sprintf "END:panic:%d " (int_of_n s)); stop := true)
          end) out.so_batches;
        String.trim (Buffer.contents buf)
      end
  | _ -> "BAD"

(* grammar: <link> <fee> <version> <system> <fmt> <cru> <dw> ; <orbit>,<bc>,<trigger>,<detfield>:<len.cnt.par>,..:<len.cnt.par> ; ...
   -> wf=<0|1> <hex of every rendered RDH> : the RDH level of Spec/Grammar.v *)
let grammar_line line =
  match List.map String.trim (String.split_on_char ';' line) with
  | head :: hbfs ->
      (match split_ws head with
       | [ link; fee; ver; sys; fmt; cru; dw ] ->
           let ni x = n_of_int (int_of_string x) in
           let page s = match String.split_on_char '.' s with
             | [ len; cnt; par ] -> { pg_counter = ni cnt; pg_par = ni par; pg_payload = List.init (int_of_string len) (fun _ -> N0) }
             | _ -> failwith "page" in
           let hbf s = match String.split_on_char ':' s with
             | [ f; pages; stop ] ->
                 (match String.split_on_char ',' f with
                  | [ o; b; t; d ] -> { h_orbit = ni o; h_bc = ni b; h_trigger = ni t; h_detfield = ni d;
                                        h_pages = (if pages = "" then [] else List.map page (String.split_on_char ',' pages)); h_stop = page stop }
                  | _ -> failwith "hbf fields")
             | _ -> failwith "hbf" in
           let ld = { l_link = ni link; l_fee = ni fee; l_version = ni ver; l_system = ni sys; l_format = ni fmt; l_cru = ni cru; l_dw = ni dw;
                      l_hbfs = List.map hbf (List.filter (fun x -> x <> "") hbfs) } in
           Printf.sprintf "wf=%d %s" (if wf_link_rdh ld then 1 else 0)
             (String.concat "," (List.map (fun (r, _) -> hex_of_bytes (encode_rdh r)) (render_link ld)))
       | _ -> "BAD")
  | _ -> "BAD"

(* grammarits: like `grammar`, but the pages carry their payload bytes: <hex|->.cnt.par ; prints whether the link is in the
   word-level grammar (the extracted membership test link_witness) and the rendered bytes of the link for the comparison *)
let grammarits_line line =
  match List.map String.trim (String.split_on_char ';' line) with
  | head :: hbfs ->
      (match split_ws head with
       | [ link; fee; ver; sys; fmt; cru; dw ] ->
           let ni x = n_of_int (int_of_string x) in
           let page s = match String.split_on_char '.' s with
             | [ hex; cnt; par ] -> { pg_counter = ni cnt; pg_par = ni par; pg_payload = (if hex = "-" then [] else bytes_of_hex hex) }
             | _ -> failwith "page" in
           let hbf s = match String.split_on_char ':' s with
             | [ f; pages; stop ] ->
                 (match String.split_on_char ',' f with
                  | [ o; b; t; d ] -> { h_orbit = ni o; h_bc = ni b; h_trigger = ni t; h_detfield = ni d;
                                        h_pages = (if pages = "" then [] else List.map page (String.split_on_char ',' pages)); h_stop = page stop }
                  | _ -> failwith "hbf fields")
             | _ -> failwith "hbf" in
           let ld = { l_link = ni link; l_fee = ni fee; l_version = ni ver; l_system = ni sys; l_format = ni fmt; l_cru = ni cru; l_dw = ni dw;
                      l_hbfs = List.map hbf (List.filter (fun x -> x <> "") hbfs) } in
           let its = match link_witness ld with Some _ -> 1 | None -> 0 in
           let stave = match stave_witness ld with Some _ -> 1 | None -> 0 in
           let cdw = match link_witness_cdw ld with Some _ -> 1 | None -> 0 in
           let scdw = match stave_witness_cdw ld with Some _ -> 1 | None -> 0 in
           Printf.sprintf "wf=%d its=%d stave=%d cdw=%d scdw=%d %s" (if wf_link_rdh ld then 1 else 0) its stave cdw scdw
             (String.concat "," (List.map (fun (r, p) -> hex_of_bytes (encode_rdh r) ^ hex_of_bytes p) (render_link ld)))
       | _ -> "BAD")
  | _ -> "BAD"

(* cli: one whole run in a check mode.
   <all|sanity> <none|its|stave> <filter> <mute 0|1> <cap> <w codes -|a,b> <E -|n> <cdps -|n> <pht -|n> <period -|n> <file|pipe> <hex> *)
let cli_line line =
  match split_ws line with
  | [ mode; target; filter; mute; cap; wc; ee; cdps; pht; period; src; hex ] ->
      let input = if hex = "-" then [] else bytes_of_hex hex in
      let tg = match target with "none" -> T_none | "its" -> T_its | _ -> T_stave in
      let vc = { v_running = (mode = "all"); v_target = tg; v_period = opt_n period; v_custom_version = None; v_chip_count = None; v_chip_orders = None } in
      let sc = parse_scfg src filter (if target = "none" then "1" else "0") in
      let codes = if wc = "-" then None else Some (List.map (fun x -> n_of_int (int_of_string x)) (String.split_on_char ',' wc)) in
      let c = { rc_scan = sc; rc_check = vc; rc_mute = (mute = "1"); rc_cap = n_of_int (int_of_string cap); rc_filter = codes;
                rc_exit = opt_n ee; rc_counts = { cc_cdps = opt_n cdps; cc_pht = opt_n pht } } in
      (match run_check fatal_sets_any_errors_flag c input with
       | R_too_short -> "SHORT"
       | R_unrecognised -> "UNRECOGNISED exit=1"
       | R_panic s -> "PANIC:" ^ dec s
       | R_done (s, shown, ex) ->
           Printf.sprintf "exit=%s total=%s fatal=%s shown=%s" (dec ex) (dec s.k_total)
             (match s.k_fatal with Some _ -> "1" | None -> "0")
             (String.concat ";" (List.map (fun m -> Printf.sprintf "%X.%s" (int_of_n m.m_off) (match m.m_codes with c :: _ -> dec c | [] -> "-")) shown)))
  | _ -> "unknown"

(* reportless: one whole run in a mode that prints no report.
   <rdh|frames|data|write> <file|pipe> <filter> <E -|n> <cdps -|n> <hex> *)
let reportless_line line =
  match split_ws line with
  | [ mode; src; filter; ee; cdps; hex ] ->
      let input = if hex = "-" then [] else bytes_of_hex hex in
      let m = match mode with "rdh" -> RL_view_rdh | "frames" -> RL_view_frames false | "data" -> RL_view_frames true | _ -> RL_write in
      let vc = { v_running = false; v_target = T_none; v_period = None; v_custom_version = None; v_chip_count = None; v_chip_orders = None } in
      let sc = parse_scfg src filter (if mode = "rdh" then "1" else "0") in
      let c = { rc_scan = sc; rc_check = vc; rc_mute = false; rc_cap = n_of_int 0; rc_filter = None;
                rc_exit = opt_n ee; rc_counts = { cc_cdps = opt_n cdps; cc_pht = None } } in
      (match run_reportless fatal_sets_any_errors_flag c m input with
       | R_too_short -> "SHORT"
       | R_unrecognised -> "UNRECOGNISED exit=1"
       | R_panic s -> "PANIC:" ^ dec s
       | R_done (s, _, ex) ->
           Printf.sprintf "exit=%s total=%s fatal=%s" (dec ex) (dec s.k_total) (match s.k_fatal with Some _ -> "1" | None -> "0"))
  | _ -> "unknown"

let rdhrt_line line =
  let b = bytes_of_hex (String.trim line) in
  let r = decode_rdh b in
  hex_of_bytes (encode_rdh r) ^ " " ^ field_sig r

(* ---- C17: thread-local replay of an event trace against the protocol LTS ---- *)
let proto_line line =
  let (head, body) = split_head line in
  match split_ws head with
  | [mode; cap; sso; wso] ->
    let m = match mode with "check" -> Mcheck | "view" -> Mview | "write" -> Mwrite | _ -> Mnone in
    let c = { c_mode = m; c_cap = nat_of_int (int_of_string cap); c_stats_stdout = (sso = "1"); c_write_stdout = (wso = "1") } in
    let b x = x = "1" in
    let ev tok =
      match String.split_on_char ':' tok with
      | ["rt"] -> T_r_top
      | ["rb"; n; cp] -> T_r_batch (nat_of_int (int_of_string n), nat_of_int (int_of_string cp))
      | ["re"] -> T_r_eof
      | ["rs"] -> T_r_sent
      | ["rx"] -> T_r_senderr
      | ["rq"; st; ls] -> T_r_exit (b st, b ls)
      | ["at"] -> T_a_top
      | ["ar"; n] -> T_a_recv (nat_of_int (int_of_string n))
      | ["ad"] -> T_a_disc
      | ["as"] -> T_a_stats
      | ["aw"; ok] -> T_a_worked (b ok)
      | ["aj"; st] -> T_a_join (b st)
      | ["aq"] -> T_a_exit
      | ["wr"; n] -> T_w_recv (nat_of_int (int_of_string n))
      | ["wd"] -> T_w_disc
      | ["ws"] -> T_w_stop
      | ["wp"] -> T_w_push
      | ["wf"] -> T_w_fail
      | ["wq"] -> T_w_drop
      | ["md"] -> T_m_droprecv
      | ["mf"] -> T_m_forwarded
      | ["mc"] -> T_m_joinC
      | ["ms"] -> T_m_joinS
      | ["cr"; k; st] -> T_c_recv ((match k with "1" -> K_error | "2" -> K_fatal | _ -> K_other), b st)
      | ["cf"] -> T_c_finish
      | ["cq"] -> T_c_exit
      | _ -> failwith ("bad proto token " ^ tok)
    in
    let evs = List.rev (List.rev_map ev (split_ws body)) in
    (match replay_thread cur_pfacts c evs with
     | None -> "ok"
     | Some i -> "rej " ^ string_of_int (int_of_nat i))
  | _ -> "bad-head"

(* ------------------------------------------------------------------ args (C16): the start-up validation of the option combination *)
(* line: <sanity|all|-> <none|its|stave> <period|-> <exit code|-> <-|missing|noext|ext:HEX>   ->  ok | rej *)
let args_line line =
  match split_ws line with
  | [ck; tg; per; ex; sf] ->
      let target = (match tg with "its" -> T_its | "stave" -> T_stave | _ -> T_none) in
      let check = (match ck with "sanity" -> Some (CK_sanity, target) | "all" -> Some (CK_all, target) | _ -> None) in
      let optn x = if x = "-" then None else Some (n_of_int (int_of_string x)) in
      let sfile = (match sf with
                   | "-" -> None
                   | "missing" -> Some SF_missing
                   | "noext" -> Some SF_no_ext
                   | s -> Some (SF_ext (bytes_of_hex (String.sub s 4 (String.length s - 4))))) in
      if validate_args { a_check = check; a_period = optn per; a_exit = optn ex; a_istats = sfile } then "ok" else "rej"
  | _ -> "bad-line"

let () =
  let stream = Sys.argv.(1) in
  let handler =
    match stream with
    | "words" -> (fun l -> words_case (split_ws l))
    | "fsm" -> (fun l -> fsm_case (split_ws l))
    | "link" -> link_line
    | "linkt" -> (show_frame_tags := true; link_line)
    | "dispatch" -> dispatch_line
    | "prep" -> prep_line
    | "scan" -> scan_with `Impl
    | "scanfixed" -> scan_with `Fixed
    | "written" -> written_line
    | "rdhrt" -> rdhrt_line
    | "writer" -> writer_line
    | "collector" -> collector_line
    | "stats" -> stats_line
    | "cli" -> cli_line
    | "reportless" -> reportless_line
    | "grammar" -> grammar_line
    | "grammarits" -> grammarits_line
    | "view" -> view_line
    | "statscmp" -> statscmp_line
    | "statsfile" -> statsfile_line
    | "wordspec" -> wordspec_line
    | "rdhspec" -> rdhspec_line
    | "proto" -> proto_line
    | "args" -> args_line
    | _ -> prerr_endline ("unknown stream " ^ stream); exit 2
  in
  let buf = Buffer.create (1 lsl 20) in
  (try
     while true do
       let line = input_line stdin in
       if line <> "" && line.[0] <> '#' then begin
         Buffer.add_string buf (handler line);
         Buffer.add_char buf '\n';
         if Buffer.length buf > (1 lsl 20) then begin print_string (Buffer.contents buf); Buffer.clear buf end
       end
     done
   with End_of_file -> ());
  print_string (Buffer.contents buf)
