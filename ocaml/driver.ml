(* Driver for the extracted model (`fpmodel`): reads the same case lines as fp_harness and
   prints the model's result and, where one exists, the specification oracle's verdict. *)
open Model

let rec pos_of_int i =
  if i = 1 then XH else if i land 1 = 1 then XI (pos_of_int (i lsr 1)) else XO (pos_of_int (i lsr 1))
let n_of_int i = if i = 0 then N0 else Npos (pos_of_int i)
let rec int_of_pos = function XH -> 1 | XO p -> 2 * int_of_pos p | XI p -> 2 * int_of_pos p + 1
let int_of_n = function N0 -> 0 | Npos p -> int_of_pos p
let rec nat_of_int i = if i = 0 then O else S (nat_of_int (i - 1))
let rec int_of_nat = function O -> 0 | S n -> 1 + int_of_nat n

let byte_tab = Array.init 256 n_of_int
let hexval c =
  match c with
  | '0' .. '9' -> Char.code c - 48
  | 'a' .. 'f' -> Char.code c - 87
  | 'A' .. 'F' -> Char.code c - 55
  | _ -> failwith "hex"
let bytes_of_hex (s : string) : n list =
  let l = String.length s / 2 in
  let rec go i acc = if i < 0 then acc else go (i - 1) (byte_tab.(hexval s.[2 * i] * 16 + hexval s.[2 * i + 1]) :: acc) in
  go (l - 1) []
let hex_of_bytes (l : n list) : string =
  String.concat "" (List.map (fun b -> Printf.sprintf "%02X" (int_of_n b)) l)

let split_ws s = List.filter (fun x -> x <> "") (String.split_on_char ' ' s)

let tag = function SR_id -> "I" | SR_reserved -> "R" | SR_trigger -> "T" | SR_index -> "X"
let tags l = if l = [] then "ok" else "err " ^ String.concat "" (List.map tag l)
let b2s b = if b then "1" else "0"
let codes l = if l = [] then "-" else String.concat "," (List.map (fun c -> string_of_int (int_of_n c)) l)

(* ------------------------------------------------------------------ words *)
let words_case toks =
  match toks with
  | [ "ihw"; h ] -> let w = bytes_of_hex h in tags (ihw_sanity w) ^ " | " ^ b2s (ihw_okb w)
  | [ "tdh"; h ] -> let w = bytes_of_hex h in tags (tdh_sanity w) ^ " | " ^ b2s (tdh_okb w)
  | [ "tdt"; h ] -> let w = bytes_of_hex h in tags (tdt_sanity w) ^ " | " ^ b2s (tdt_okb w)
  | [ "ddw0"; h ] -> let w = bytes_of_hex h in tags (ddw0_sanity w) ^ " | " ^ b2s (ddw0_okb w)
  | [ "data"; h; lanes; running ] ->
      let w = bytes_of_hex h in
      let lanes = n_of_int (int_of_string ("0x" ^ lanes)) in
      let r = running = "1" in
      let id = List.nth w 9 in
      codes (data_word_codes r w lanes) ^ " | "
      ^ (if valid_data_id id then codes (data_word_verdict r id lanes) else "70+")
  | _ -> "unknown"

(* ------------------------------------------------------------------ fsm *)
let fsm_case toks =
  match toks with
  | [ ws ] ->
      let words = List.map bytes_of_hex (String.split_on_char ',' ws) in
      let buf = Buffer.create 64 and sbuf = Buffer.create 64 in
      let st = ref S_InitialIHW and d = ref D_IHW in
      List.iter
        (fun w ->
          let st', r = advance !st w in
          st := st';
          Buffer.add_string buf (Printf.sprintf "%d:%d " (int_of_n (fres_id r)) (int_of_n (fstate_id st')));
          let d', v = dstep !d (List.nth w 9) (sl_tdh_no_data w) (sl_tdt_packet_done w) in
          d := d';
          Buffer.add_string sbuf (Printf.sprintf "%d:%d " (int_of_n (dverdict_id v)) (int_of_n (dstate_id d'))))
        words;
      String.trim (Buffer.contents buf) ^ " | " ^ String.trim (Buffer.contents sbuf)
  | [ "abs_table" ; _ ] | _ ->
      String.concat " " (List.map (fun s -> Printf.sprintf "%d:%d" (int_of_n (fstate_id s)) (int_of_n (dstate_id (abs s)))) all_fstates)

let () =
  let stream = Sys.argv.(1) in
  let handler =
    match stream with
    | "words" -> words_case
    | "fsm" -> fsm_case
    | _ -> prerr_endline ("unknown stream " ^ stream); exit 2
  in
  let buf = Buffer.create (1 lsl 20) in
  (try
     while true do
       let line = input_line stdin in
       if line <> "" && line.[0] <> '#' then begin
         Buffer.add_string buf (handler (split_ws line));
         Buffer.add_char buf '\n';
         if Buffer.length buf > (1 lsl 20) then begin print_string (Buffer.contents buf); Buffer.clear buf end
       end
     done
   with End_of_file -> ());
  print_string (Buffer.contents buf)
